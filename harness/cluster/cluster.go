package cluster

import (
	"fmt"
	"path/filepath"
	"strings"
	"sync"
	"time"

	"github.com/superfly/litefs"
	lhttp "github.com/superfly/litefs/http"
	"verif/drv"
	"verif/lease"
)

// NodeOpts configures one cluster node.
type NodeOpts struct {
	Candidate bool
	Filter    []string
	Tune      func(s *litefs.Store)
	// KernelMount mounts the node's file system through the kernel (driver B).
	KernelMount bool
	// Leaser, if set, builds the node's leaser instead of the lease service's
	// own (e.g. LiteFS's Consul leaser pointed at a fake Consul that is backed by
	// the lease service).
	Leaser func(name, hostname, advertiseURL string) (litefs.Leaser, error)
	// RefillCache: the simulated page cache re-reads every range right after its invalidation.
	RefillCache bool
}

// CNode is one cluster member. The embedded *drv.Node is replaced on restart.
type CNode struct {
	*drv.Node
	Name   string
	Index  int
	Dir    string
	Opts   NodeOpts
	Proxy  *Proxy
	Client *RecClient
	Up     bool
	// PreOpen, if set, runs on the new drv.Node before its store opens.
	PreOpen func(n *drv.Node)
}

// Cluster is a set of nodes sharing one lease service.
type Cluster struct {
	nodeMu sync.RWMutex // guards CNode.Node / CNode.Up against observer goroutines
	Dir    string
	Svc    *lease.Service
	Nodes  []*CNode
}

// New creates a cluster description (nodes are started with Start).
func New(dir string, opts []NodeOpts) (*Cluster, error) {
	c := &Cluster{Dir: dir, Svc: lease.NewService(300 * time.Millisecond)}
	for i, o := range opts {
		p, err := NewProxy()
		if err != nil {
			return nil, err
		}
		c.Nodes = append(c.Nodes, &CNode{Name: fmt.Sprintf("n%d", i), Index: i, Dir: filepath.Join(dir, fmt.Sprintf("n%d", i)), Opts: o, Proxy: p})
	}
	return c, nil
}

// Start (re)starts node i on its data directory.
func (c *Cluster) Start(i int) error {
	cn := c.Nodes[i]
	if cn.Up {
		return nil
	}
	rc := &RecClient{Inner: lhttp.NewClient()}
	cn.Client = rc
	var leaser litefs.Leaser = c.Svc.Leaser(cn.Name, cn.Name, cn.Proxy.URL())
	if cn.Opts.Leaser != nil {
		l, err := cn.Opts.Leaser(cn.Name, cn.Name, cn.Proxy.URL())
		if err != nil {
			return err
		}
		leaser = l
	}
	n, err := drv.NewNode(drv.Config{
		Dir: cn.Dir, Candidate: cn.Opts.Candidate, HTTP: true, Client: rc, KernelMount: cn.Opts.KernelMount,
		Leaser:      leaser,
		PreOpen:     cn.PreOpen,
		RefillCache: cn.Opts.RefillCache,
		Tune: func(s *litefs.Store) {
			s.DatabaseFilter = cn.Opts.Filter
			if cn.Opts.Tune != nil {
				cn.Opts.Tune(s)
			}
		},
	})
	if err != nil {
		return err
	}
	rc.SetPosSampler(func(name string) [2]uint64 {
		db := n.Store.DB(name)
		if db == nil {
			return [2]uint64{}
		}
		p := db.Pos()
		return [2]uint64{uint64(p.TXID), uint64(p.PostApplyChecksum)}
	})
	c.nodeMu.Lock()
	cn.Node = n
	cn.Up = true
	c.nodeMu.Unlock()
	cn.Proxy.SetTarget(strings.TrimPrefix(n.URL(), "http://"))
	cn.Proxy.SetMode("pass")
	return nil
}

// Live returns node name's current driver node for observers that run on other
// goroutines than the scenario (lease-service callbacks, samplers): nil while
// the node is down or still starting.
func (c *Cluster) Live(name string) (*drv.Node, *CNode) {
	c.nodeMu.RLock()
	defer c.nodeMu.RUnlock()
	for _, cn := range c.Nodes {
		if cn.Name == name && cn.Up && cn.Node != nil {
			return cn.Node, cn
		}
	}
	return nil, nil
}

// Stop shuts node i down cleanly and cuts its connections.
func (c *Cluster) Stop(i int) {
	cn := c.Nodes[i]
	if !cn.Up {
		return
	}
	c.nodeMu.Lock()
	cn.Up = false
	c.nodeMu.Unlock()
	cn.Proxy.Cut()
	cn.Node.Close()
	cn.Proxy.Cut()
}

// Close stops everything.
func (c *Cluster) Close() {
	for i := range c.Nodes {
		c.Stop(i)
		c.Nodes[i].Proxy.Close()
	}
}

// Primary returns the node that currently reports IsPrimary (nil if none).
func (c *Cluster) Primary() *CNode {
	for _, n := range c.Nodes {
		if n.Up && n.Store.IsPrimary() {
			return n
		}
	}
	return nil
}

// WaitPrimary waits until node i (or any node if i<0) is primary.
func (c *Cluster) WaitPrimary(i int, d time.Duration) *CNode {
	deadline := time.Now().Add(d)
	for time.Now().Before(deadline) {
		if p := c.Primary(); p != nil && (i < 0 || p.Index == i) {
			return p
		}
		time.Sleep(2 * time.Millisecond)
	}
	return nil
}

// WaitConnected waits until replica i has an open stream session to a primary.
func (c *Cluster) WaitConnected(i int, d time.Duration) bool {
	deadline := time.Now().Add(d)
	for time.Now().Before(deadline) {
		if c.Nodes[i].Up {
			if _, info := c.Nodes[i].Store.PrimaryInfo(); info != nil {
				select {
				case <-c.Nodes[i].Store.ReadyCh():
					return true
				default:
				}
			}
		}
		time.Sleep(2 * time.Millisecond)
	}
	return false
}

// PosEqual reports whether replica r has the primary's position for every name.
func PosEqual(p, r *CNode, names []string) bool {
	for _, name := range names {
		pd := p.Store.DB(name)
		rd := r.Store.DB(name)
		if pd == nil {
			continue
		}
		if rd == nil {
			if pd.Pos().TXID == 0 {
				continue
			}
			return false
		}
		if pd.Pos() != rd.Pos() {
			return false
		}
	}
	return true
}

// WaitConverged waits (bounded by heartbeats seen, with a wall-clock watchdog)
// until replica r has the primary's position for every named database.
// Returns ok, heartbeats observed while waiting, and whether the watchdog fired.
func (c *Cluster) WaitConverged(p, r *CNode, names []string, maxHeartbeats int64, watchdog time.Duration) (ok bool, beats int64, timedOut bool) {
	start := r.Client.Heartbeats.Load()
	sess0 := len(r.Client.Sessions())
	deadline := time.Now().Add(watchdog)
	for {
		if PosEqual(p, r, names) {
			return true, r.Client.Heartbeats.Load() - start, false
		}
		if p.Exited() || r.Exited() {
			// a node called Store.Exit: it is a dead process, nothing will converge
			return false, r.Client.Heartbeats.Load() - start, false
		}
		// livelock: three stream sessions in a row that began after the faults
		// stopped ended in an error
		if ss := r.Client.Sessions(); len(ss) >= sess0+8 && !PosEqual(p, r, names) {
			// eight reconnects after the faults stopped without catching up
			return false, r.Client.Heartbeats.Load() - start, false
		} else if len(ss) >= sess0+4 {
			bad := 0
			for _, s := range ss[sess0+1:] {
				if s.Ended && (s.EndErr != "" && s.EndErr != "EOF" || s.OpenErr != "") {
					bad++
				} else {
					bad = 0
				}
			}
			if bad >= 3 && !PosEqual(p, r, names) {
				return false, r.Client.Heartbeats.Load() - start, false
			}
		}
		if hb := r.Client.Heartbeats.Load() - start; hb >= maxHeartbeats {
			// re-check once more after the bound
			if PosEqual(p, r, names) {
				return true, hb, false
			}
			return false, hb, false
		}
		if time.Now().After(deadline) {
			return false, r.Client.Heartbeats.Load() - start, true
		}
		time.Sleep(time.Millisecond)
	}
}
