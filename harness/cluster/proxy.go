// Package cluster runs several LiteFS nodes in one process with a scriptable
// lease service, per-node TCP fault proxies and recording client wrappers.
package cluster

import (
	"fmt"
	"net"
	"sync"
	"sync/atomic"
)

// Proxy is a TCP fault proxy in front of one node's HTTP server.
type Proxy struct {
	ln     net.Listener
	mu     sync.Mutex
	cond   *sync.Cond
	target string
	mode   string // pass | refuse | stall
	conns  map[net.Conn]net.Conn
	closed bool

	Accepted atomic.Int64
	Cuts     atomic.Int64
}

func NewProxy() (*Proxy, error) {
	ln, err := net.Listen("tcp", "127.0.0.1:0")
	if err != nil {
		return nil, err
	}
	p := &Proxy{ln: ln, mode: "pass", conns: map[net.Conn]net.Conn{}}
	p.cond = sync.NewCond(&p.mu)
	go p.accept()
	return p, nil
}

func (p *Proxy) URL() string { return fmt.Sprintf("http://%s", p.ln.Addr().String()) }

// SetTarget points the proxy at host:port.
func (p *Proxy) SetTarget(addr string) {
	p.mu.Lock()
	p.target = addr
	p.mu.Unlock()
}

// SetMode switches between pass, refuse (new connections are closed at once)
// and stall (bytes are held until the mode changes).
func (p *Proxy) SetMode(m string) {
	p.mu.Lock()
	p.mode = m
	p.cond.Broadcast()
	p.mu.Unlock()
}

// Cut closes every open connection.
func (p *Proxy) Cut() {
	p.mu.Lock()
	for c, u := range p.conns {
		_ = c.Close()
		_ = u.Close()
	}
	p.conns = map[net.Conn]net.Conn{}
	p.cond.Broadcast()
	p.mu.Unlock()
	p.Cuts.Add(1)
}

func (p *Proxy) Close() {
	p.mu.Lock()
	p.closed = true
	p.mu.Unlock()
	_ = p.ln.Close()
	p.Cut()
}

func (p *Proxy) accept() {
	for {
		c, err := p.ln.Accept()
		if err != nil {
			return
		}
		p.Accepted.Add(1)
		p.mu.Lock()
		mode, target := p.mode, p.target
		p.mu.Unlock()
		if mode == "refuse" || target == "" {
			_ = c.Close()
			continue
		}
		u, err := net.Dial("tcp", target)
		if err != nil {
			_ = c.Close()
			continue
		}
		p.mu.Lock()
		p.conns[c] = u
		p.mu.Unlock()
		go p.pipe(c, u, c)
		go p.pipe(u, c, c)
	}
}

func (p *Proxy) pipe(src, dst, key net.Conn) {
	buf := make([]byte, 32*1024)
	for {
		n, err := src.Read(buf)
		if n > 0 {
			p.mu.Lock()
			for p.mode == "stall" && !p.closed {
				if _, ok := p.conns[key]; !ok {
					break
				}
				p.cond.Wait()
			}
			p.mu.Unlock()
			if _, werr := dst.Write(buf[:n]); werr != nil {
				break
			}
		}
		if err != nil {
			break
		}
	}
	_ = src.Close()
	_ = dst.Close()
	p.mu.Lock()
	delete(p.conns, key)
	p.mu.Unlock()
}
