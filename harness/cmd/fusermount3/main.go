// fusermount3 shim: the sandbox has /dev/fuse and root but no fusermount3 binary.
// bazil.org/fuse execs `fusermount3 -o <opts> -- <dir>` with _FUSE_COMMFD naming a
// unix socket on which it expects the opened /dev/fuse descriptor. This shim does
// the mount(2) itself and passes the descriptor back. `-u`/`-z` unmount lazily.
package main

import (
	"fmt"
	"net"
	"os"
	"strconv"
	"strings"
	"syscall"
)

func die(format string, a ...any) {
	fmt.Fprintf(os.Stderr, "fusermount3(shim): "+format+"\n", a...)
	os.Exit(1)
}

func main() {
	var opts, dir string
	unmount := false
	args := os.Args[1:]
	for i := 0; i < len(args); i++ {
		switch a := args[i]; {
		case a == "-o" && i+1 < len(args):
			opts = args[i+1]
			i++
		case a == "--":
		case a == "-u", a == "-z", a == "-uz", a == "-zu", a == "-q":
			if strings.Contains(a, "u") {
				unmount = true
			}
		case strings.HasPrefix(a, "-"):
		default:
			dir = a
		}
	}
	if dir == "" {
		die("no mount point")
	}
	if unmount {
		if err := syscall.Unmount(dir, syscall.MNT_DETACH); err != nil {
			die("unmount %s: %v", dir, err)
		}
		return
	}
	commfd, err := strconv.Atoi(os.Getenv("_FUSE_COMMFD"))
	if err != nil {
		die("_FUSE_COMMFD not set")
	}
	fd, err := syscall.Open("/dev/fuse", syscall.O_RDWR, 0)
	if err != nil {
		die("open /dev/fuse: %v", err)
	}
	fsname, subtype := "fuse", ""
	kopts := []string{fmt.Sprintf("fd=%d", fd), "rootmode=40000", "user_id=0", "group_id=0"}
	var flags uintptr = syscall.MS_NOSUID | syscall.MS_NODEV
	for _, o := range strings.Split(opts, ",") {
		switch {
		case o == "":
		case strings.HasPrefix(o, "fsname="):
			fsname = strings.TrimPrefix(o, "fsname=")
		case strings.HasPrefix(o, "subtype="):
			subtype = strings.TrimPrefix(o, "subtype=")
		case o == "allow_other", o == "default_permissions", strings.HasPrefix(o, "max_read="), strings.HasPrefix(o, "blksize="):
			kopts = append(kopts, o)
		case o == "ro":
			flags |= syscall.MS_RDONLY
		case o == "nonempty", o == "rw", o == "nosuid", o == "nodev", o == "auto_unmount":
		default:
			// options fusermount would interpret itself are ignored
		}
	}
	typ := "fuse"
	if subtype != "" {
		typ = "fuse." + subtype
	}
	if err := syscall.Mount(fsname, dir, typ, flags, strings.Join(kopts, ",")); err != nil {
		die("mount %s: %v", dir, err)
	}
	f := os.NewFile(uintptr(commfd), "commfd")
	c, err := net.FileConn(f)
	if err != nil {
		die("commfd: %v", err)
	}
	uc, ok := c.(*net.UnixConn)
	if !ok {
		die("commfd is not a unix socket")
	}
	if _, _, err := uc.WriteMsgUnix([]byte{0}, syscall.UnixRights(fd), nil); err != nil {
		die("send fd: %v", err)
	}
}
