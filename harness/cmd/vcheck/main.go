// vcheck runs one property check: `vcheck <Cxx> --tier quick|thorough [--seed N] [--replay file]`.
package main

import (
	"encoding/json"
	"flag"
	"fmt"
	"github.com/superfly/litefs"
	"io"
	"log"
	"os"
	"strconv"

	"verif/checks"
	"verif/core"
)

func main() {
	if len(os.Args) < 2 {
		fmt.Fprintln(os.Stderr, "usage: vcheck <Cxx>|worker <Cxx>|list ...")
		os.Exit(2)
	}
	// LiteFS logs through the std logger; keep it out of the way unless asked.
	if os.Getenv("VERIF_LOG") == "" {
		log.SetOutput(io.Discard)
	} else if os.Getenv("VERIF_LOG") == "trace" {
		litefs.TraceLog = log.New(os.Stderr, "TRACE ", log.Lmicroseconds)
	}
	switch os.Args[1] {
	case "list":
		for _, id := range checks.IDs() {
			fmt.Println(id)
		}
		return
	case "worker":
		os.Exit(worker(os.Args[2:]))
	case "sqlchild":
		os.Exit(checks.SQLChild())
	case "c18child":
		if len(os.Args) < 4 {
			os.Exit(2)
		}
		os.Exit(checks.C18Child(os.Args[2], os.Args[3]))
	}
	os.Exit(parent(os.Args[1:]))
}

func seedFromEnv() int64 {
	if v := os.Getenv("VERIF_SEED"); v != "" {
		if n, err := strconv.ParseInt(v, 10, 64); err == nil {
			return n
		}
	}
	return 20260925
}

func parent(args []string) int {
	id := args[0]
	chk := checks.Registry[id]
	if chk == nil {
		fmt.Fprintf(os.Stderr, "unknown check %q\n", id)
		return 2
	}
	fs := flag.NewFlagSet("vcheck", flag.ExitOnError)
	tier := fs.String("tier", envOr("VERIF_TIER", "quick"), "quick|thorough")
	seed := fs.Int64("seed", seedFromEnv(), "seed")
	replay := fs.String("replay", "", "replay file")
	one := fs.Int("case", -1, "run a single case in-process, verbose")
	workers := fs.Int("workers", 0, "worker processes")
	verbose := fs.Bool("v", false, "verbose")
	raceExe := fs.String("race-exe", os.Getenv("VERIF_RACE_EXE"), "path of the -race build")
	_ = fs.Parse(args[1:])
	if *replay != "" {
		b, err := os.ReadFile(*replay)
		if err != nil {
			fmt.Fprintln(os.Stderr, err)
			return 2
		}
		var v core.Violation
		if err := json.Unmarshal(b, &v); err != nil {
			fmt.Fprintln(os.Stderr, err)
			return 2
		}
		fmt.Printf("replaying %s case %d (tier %s seed %d): %s\n", id, v.Case, v.Tier, v.Seed, v.Fingerprint)
		return core.RunSingle(chk, v.Tier, v.Seed, v.Case)
	}
	if *one >= 0 {
		return core.RunSingle(chk, *tier, *seed, *one)
	}
	exe, _ := os.Executable()
	return core.RunParent(chk, core.Options{Tier: *tier, Seed: *seed, Workers: *workers, Verbose: *verbose, SelfExe: exe, RaceExe: *raceExe})
}

func worker(args []string) int {
	id := args[0]
	chk := checks.Registry[id]
	if chk == nil {
		return 2
	}
	fs := flag.NewFlagSet("worker", flag.ExitOnError)
	tier := fs.String("tier", "quick", "")
	seed := fs.Int64("seed", 1, "")
	from := fs.Int("from", 0, "")
	stride := fs.Int("stride", 1, "")
	n := fs.Int("n", 0, "")
	out := fs.String("out", "", "")
	scratch := fs.String("scratch", "", "")
	_ = fs.Parse(args[1:])
	return core.RunWorker(chk, *tier, *seed, *from, *stride, *n, *out, *scratch)
}

func envOr(k, d string) string {
	if v := os.Getenv(k); v != "" {
		return v
	}
	return d
}
