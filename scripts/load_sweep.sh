#!/bin/bash
# usage: load_sweep.sh <tier> [seed ...]
# sweep.sh with the machine oversubscribed: 2x nproc busy loops run beside the checks.
# Races that are microseconds wide on an idle machine (late goroutines, late kernel
# notifications) open up under load; verdicts must not change (watchdogs are inconclusive,
# no oracle reads the clock), so this is both a false-alarm test and a race hunt.
cd "$(dirname "$0")/.."
N=$(( $(nproc) * 2 ))
pids=()
for i in $(seq 1 $N); do ( while :; do :; done ) & pids+=($!); done
trap 'kill "${pids[@]}" 2>/dev/null' EXIT
scripts/sweep.sh "$@"
