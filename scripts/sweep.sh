#!/bin/bash
# usage: sweep.sh <tier> [seed ...]   (no seed = default seed; evidence is then the committed kind)
# Runs every check of MANIFEST.json one after the other and prints exit code + summary line.
cd "$(dirname "$0")/.."
TIER=${1:-quick}; shift
SEEDS=("$@"); [ ${#SEEDS[@]} -eq 0 ] && SEEDS=("")
IDS=$(python3 -c "import json;print(' '.join(c['property_id'] for c in json.load(open('MANIFEST.json'))['checks']))")
[ -n "${VERIF_IDS:-}" ] && IDS=$VERIF_IDS   # restrict the sweep to some checks
bad=0
mkdir -p /dev/shm/sweep-$$ && cp known_findings.json /dev/shm/sweep-$$/
for s in "${SEEDS[@]}"; do
  for id in $IDS; do
    if [ -n "$s" ]; then out=$(VERIF_SEED=$s VERIF_ROOT_OVERRIDE=/dev/shm/sweep-$$ ./check $id $TIER 2>&1); else out=$(./check $id $TIER 2>&1); fi
    rc=$?
    echo "rc=$rc seed=${s:-default} $(echo "$out" | grep -E "^C[0-9]+ tier=" | tail -1)"
    if [ $rc -ne 0 ]; then bad=1; echo "$out" | grep -E "VIOLATION|BROKEN|KNOWN" | head -5
      # keep the replay files of a failing run (the scratch root is removed below)
      mkdir -p replays-sweep && cp -r /dev/shm/sweep-$$/replays/. replays-sweep/ 2>/dev/null
    fi
  done
done
rm -rf /dev/shm/sweep-$$
exit $bad
