#!/bin/bash
# usage: seed_eval.sh <Cxx> [check-id ...]   (seed from /tmp/seedout-Cxx or /verif/seeded/Cxx)
# Confirms a seeded change in a scratch worktree (demo passes clean / fails patched,
# builds + baseline tests green) and runs the given checks (default: the property's own) against it.
set -u
ID=$1; shift
CHECKS=${*:-$ID}
SRC=/tmp/seedout-$ID; [ -d "$SRC" ] || SRC=/verif/seeded/$ID
export GOFLAGS=-mod=mod GOPROXY=off GOSUMDB=off GOTOOLCHAIN=local
W=/tmp/seedchk-$ID-$$
git -C /repo worktree add -q --detach "$W" "${SEED_BASE:-HEAD}" || exit 3
trap 'git -C /repo worktree remove --force "$W" >/dev/null 2>&1; rm -rf /verif/bin/*-$(echo "$W" | md5sum | cut -c1-8)*' EXIT
cd "$W"
for f in "$SRC"/*_test.go "$SRC"/demo/*; do [ -f "$f" ] || continue
  dest=$(head -4 "$f" | grep -o '[A-Za-z0-9_./<> -]*_test\.go' | head -1 | sed 's#.*<repo root>/##; s#^.* ##')
  [ -n "$dest" ] || dest=$(basename "$f")
  mkdir -p "$(dirname "$dest")"; cp "$f" "$dest"
done
RUN=$(for f in "$SRC"/*_test.go; do case "$f" in *side*) continue;; esac; head -3 "$f"; done | grep -o "go test [^\`(]*" | head -1 | sed 's/   .*//; s/ *$//')
[ -n "$RUN" ] || RUN="go test -vet=off -count=1 -run Demo ."
echo "demo cmd: $RUN"
if eval "$RUN" >/tmp/seed-$ID-clean.log 2>&1; then echo "demo on clean tree: PASS (expected)"; else echo "demo on clean tree: FAIL (unexpected)"; tail -5 /tmp/seed-$ID-clean.log; fi
git apply "$SRC/patch.diff" || { echo "patch does not apply"; exit 3; }
if eval "$RUN" >/tmp/seed-$ID-patched.log 2>&1; then echo "demo on patched tree: PASS (unexpected)"; else echo "demo on patched tree: FAIL (expected)"; fi
go build ./... && go build -tags verif ./... && echo "builds: ok"
# baseline (guard off) must still pass
git status --porcelain | grep '^??' | awk '{print $2}' | xargs -r rm -rf
go test -vet=off -count=1 . ./http/... ./internal/... ./lfsc/... >/tmp/seed-$ID-base.log 2>&1 && echo "baseline packages: ok" || { echo "baseline packages: FAIL"; tail -5 /tmp/seed-$ID-base.log; }
mkdir -p "$W.out"; cp /verif/known_findings.json "$W.out/"
for c in $CHECKS; do
  echo "--- check $c against the seeded tree"
  VERIF_REPO="$W" VERIF_ROOT_OVERRIDE="$W.out" timeout 1500 /verif/check $c quick 2>&1 | grep -v "^  " | cut -c1-330 | head -6
done
rm -rf "$W.out"
