#!/bin/bash
# Runs the repository's pinned test suite with the verif guard OFF and compares
# the set of passing tests with /root/.vp/BASELINE.json (stable_pass).
export GOFLAGS=-mod=mod GOPROXY=off GOSUMDB=off GOTOOLCHAIN=local
out=$(mktemp)
trap 'rm -f "$out"' EXIT
(cd /repo && go test -json -vet=off -count=1 -timeout 25m ./... >"$out" 2>/dev/null)
python3 - "$out" <<'PY'
import json,sys
passed=set()
for l in open(sys.argv[1]):
    try: e=json.loads(l)
    except Exception: continue
    if e.get('Action')=='pass' and e.get('Test'):
        passed.add(e['Package']+'::'+e['Test'])
base=set(json.load(open('/root/.vp/BASELINE.json'))['stable_pass'])
missing=sorted(base-passed)
print(f"baseline stable_pass={len(base)} passed_now={len(passed)} missing={len(missing)}")
for m in missing: print("MISSING",m)
sys.exit(1 if missing else 0)
PY
