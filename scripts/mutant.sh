#!/bin/bash
# usage: mutant.sh '<sed-expr or patch file>' <file-relative-to-repo|-> <Cxx> [tier]
# Copies /repo (without .git) to a scratch dir named litefs, applies either a
# sed expression to one file or a patch file (when 2nd arg is "-"), runs the
# check against it with VERIF_REPO, and removes the copy.
set -u
EXPR=$1; FILE=$2; ID=$3; TIER=${4:-quick}
D=$(mktemp -d /dev/shm/mut-XXXXXX)
trap 'rm -rf "$D" /verif/bin/*-$(echo "$D/litefs" | md5sum | cut -c1-8)*' EXIT
mkdir "$D/litefs"
(cd /repo && tar --exclude=.git -cf - .) | (cd "$D/litefs" && tar xf -)
if [ "$FILE" = "-" ]; then
  (cd "$D/litefs" && patch -p1 -s < "$EXPR") || { echo "patch failed"; exit 3; }
else
  before=$(md5sum "$D/litefs/$FILE")
  sed -i "$EXPR" "$D/litefs/$FILE"
  [ "$before" = "$(md5sum "$D/litefs/$FILE")" ] && { echo "sed expression changed nothing"; exit 3; }
fi
(cd "$D/litefs" && GOFLAGS=-mod=mod GOPROXY=off GOSUMDB=off go build ./... ) || { echo "mutant does not compile"; exit 3; }
mkdir -p "$D/out"; cp /verif/known_findings.json "$D/out/" 2>/dev/null
VERIF_REPO="$D/litefs" VERIF_ROOT_OVERRIDE="$D/out" /verif/check "$ID" "$TIER" 2>&1 | grep -v "^  " | head -12
