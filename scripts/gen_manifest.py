#!/usr/bin/env python3
"""Regenerates MANIFEST.json from scripts/manifest_src.json (per-check texts) and
the list of checks the harness implements (harness/checks/cNN.go)."""
import json, os, re, subprocess
root = os.path.dirname(os.path.dirname(os.path.abspath(__file__)))
src = json.load(open(os.path.join(root, 'scripts', 'manifest_src.json')))
props = [json.loads(l)['id'] for l in open(os.path.join(root, 'properties.jsonl'))]
implemented = set()
for f in os.listdir(os.path.join(root, 'harness', 'checks')):
    m = re.match(r'c(\d+)\.go$', f)
    if m: implemented.add('C' + m.group(1))
hooks = subprocess.run(['git', '-C', '/repo', 'log', '--format=%H', '--grep=^verif hook'], capture_output=True, text=True).stdout.split()
man = {
 "version": 1,
 "setup_cmd": "./setup.sh",
 "hooks": {
  "guard": "verif",
  "enable": "go build -tags verif (harness module 'verif' with replace github.com/superfly/litefs => /repo)",
  "baseline_off_cmd": "./scripts/baseline_off.sh",
  "source_commits": hooks,
  "add_only": True
 },
 "engines": [{"name": "vcheck", "path": "harness/cmd/vcheck", "serves_properties": sorted(implemented),
              "kind_free_text": "runtime monitoring: real LiteFS code driven in-process (FUSE handlers, HTTP servers, lease scripts) by generated hostile workloads; oracles are independent reference code over observed events; parent/worker process model; optional -race build"}],
 "checks": [], "not_applicable": [],
 "notes": src.get("notes", "")
}
for p in props:
    if p in implemented and p in src["checks"]:
        c = src["checks"][p]
        man["checks"].append({
            "property_id": p,
            "quick_cmd": f"./check {p} quick",
            "thorough_cmd": f"./check {p} thorough",
            "evidence_file": f"evidence/{p}.json",
            "replay_cmd_template": f"./check {p} quick --replay {{path}}",
            "engine": "vcheck",
            "level_claimed": {"category": c["category"], "text": c["text"], "design_ref": c.get("design_ref", f"DESIGN.md section 2, {p}")},
            "level_note": c["note"],
            "technique": c["technique"],
        })
    else:
        man["not_applicable"].append({"property_id": p, "reason": src.get("na", {}).get(p, "check not built yet in this framework (work in progress); nothing is claimed for it")})
json.dump(man, open(os.path.join(root, 'MANIFEST.json'), 'w'), indent=1)
print("claimed:", [c["property_id"] for c in man["checks"]])
