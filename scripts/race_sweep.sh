#!/bin/bash
# usage: race_sweep.sh [tier] [Cxx ...]
# Builds the harness with the Go race detector and runs the given checks (default: all
# but C12, which runs under -race on its own, and C17/C18, which are single-threaded
# decoders) with race reports collected. Not a verdict of any check (only C12 treats a
# race as a violation); it is a hunt for data races in LiteFS under the checks' workloads.
# Prints the number of reports and the racing function pairs, if any.
set -u
cd "$(dirname "$0")/.."
ROOT=$(pwd)
export GOFLAGS=-mod=mod GOPROXY=off GOSUMDB=off GOTOOLCHAIN=local CGO_ENABLED=1
TIER=${1:-quick}; shift || true
IDS=${*:-C01 C02 C03 C04 C05 C06 C07 C08 C09 C10 C11 C13 C14 C15 C16 C19 C20}
OUT=$(mktemp -d /dev/shm/race-XXXXXX)
trap 'rm -rf "$OUT"' EXIT
( cd harness && go build -race -tags verif -o "$OUT/vcheck-race" ./cmd/vcheck && go build -o "$ROOT/bin/fusermount3" ./cmd/fusermount3 ) || exit 2
cp known_findings.json "$OUT/"
for id in $IDS; do
  VERIF_RACELOG_DIR="$OUT/logs" VERIF_ROOT="$OUT" PATH="$ROOT/bin:$PATH" "$OUT/vcheck-race" $id --tier $TIER 2>&1 | grep -E "^C[0-9]+ tier=|VIOLATION|BROKEN" | cut -c1-200
done
N=$(cat "$OUT"/logs/* 2>/dev/null | grep -c "WARNING: DATA RACE")
echo "race reports: $N"
if [ "$N" != "0" ]; then
  cat "$OUT"/logs/* | grep -A4 "^\(Write\|Read\|Previous\)" | grep "()$" | sort | uniq -c | sort -rn | head -20
  exit 1
fi
