#!/usr/bin/env python3
"""seed_keep.py <seed-dir-name> <property> <status> <caught_by fingerprint/what> [note]
Copies /tmp/seedout-<name> into /verif/seeded/<name>/ and records what was confirmed."""
import json, os, shutil, sys, glob
name, prop, status, caught = sys.argv[1:5]
note = sys.argv[5] if len(sys.argv) > 5 else ""
src = f"/tmp/seedout-{name}"; dst = f"/verif/seeded/{name}"
os.makedirs(dst, exist_ok=True)
shutil.copy(f"{src}/patch.diff", dst)
demos = []
for f in glob.glob(f"{src}/*"):
    b = os.path.basename(f)
    if b in ("patch.diff", "meta.json"): continue
    if os.path.isfile(f):
        # keep go test files from being compiled as part of anything under /verif
        shutil.copy(f, os.path.join(dst, b + ".txt" if b.endswith(".go") else b)); demos.append(b)
try: agent = json.load(open(f"{src}/meta.json"))
except Exception as e: agent = {"error": str(e)}
meta = {
 "property": prop,
 "breaks": agent.get("summary", ""),
 "needs_to_manifest": agent.get("needs", ""),
 "demonstration": demos,
 "demonstration_note": "stored with a .txt suffix; place as its first-line comment says (drop the suffix) in a scratch worktree",
 "confirmed_by_me": {
   "how": "scripts/seed_eval.sh in a scratch git worktree of /repo HEAD: demonstration passes on the clean tree and fails with patch.diff applied; go build ./... and go build -tags verif ./... succeed; go test -vet=off -count=1 . ./http/... ./internal/... ./lfsc/... green with the patch",
   "check_result": status, "caught_by": caught, "note": note},
 "author_report": agent,
}
json.dump(meta, open(f"{dst}/meta.json", "w"), indent=1)
print("kept", dst, demos)
